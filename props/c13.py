# C13 — concurrent file reads never exceed the configured limits.
from lib import vf

ID = "C13"
PROP_FILE = "Props/C13.v"
CONSTS = ["default_max_concurrent_cats", "default_max_concurrent_tails"]
RULE = ("scripted histories (start i / stop i) over real ServerHandler sessions sharing one limiter channel of capacity 1-3 with "
        "2-7 following readers; stops hit waiting readers, holders, and readers never started; after every event, at quiescence "
        "(waited for through the verif hooks), len(limiter) and the set of test files open in the process are recorded; non-trivial = "
        "more readers than slots and at least one stop of a waiting reader; distinct by (cap, events)")
TRUSTED = ["Coq 8.16.1 kernel + VM", "Go scheduler: acquisition order among waiters is an environment choice",
           "Go harness dverif limiter + verif hooks limiter.enter/queued/acquired/released; /proc/self/fd as the open-file observer"]
ASSUMPTIONS = ["'being read' = the file is open in the server process (the periodic truncation check's short-lived second descriptor maps to the same file)",
               "fairness among waiters is not claimed; only that a free slot is taken while somebody waits"]


def gen_history(rng, cap, n):
    evs = []
    started, stopped = set(), set()
    for _ in range(rng.randint(3, 12)):
        k = rng.random()
        idle = [i for i in range(n) if i not in started]
        live = [i for i in started if i not in stopped]
        if idle and k < 0.15:
            i = rng.choice(idle)
            evs.append(["startstop", str(i)])      # session already gone when its read reaches the limiter
            started.add(i); stopped.add(i)
        elif idle and (k < 0.6 or not live):
            i = rng.choice(idle)
            evs.append(["start", str(i)])
            started.add(i)
        elif live:
            # prefer stopping a reader that is (probably) waiting: the most recently started ones
            i = rng.choice(live[-2:]) if rng.random() < 0.6 else rng.choice(live)
            evs.append(["stop", str(i)])
            stopped.add(i)
    return evs


def generate(rng, tier):
    cases = [{"cap": 1, "n": 4, "events": [["startstop", "0"], ["startstop", "1"], ["startstop", "2"], ["start", "3"]]},
             {"cap": 1, "n": 3, "events": [["start", "0"], ["start", "1"], ["stop", "1"], ["start", "2"], ["stop", "0"], ["stop", "2"]]},
             {"cap": 2, "n": 4, "events": [["start", "0"], ["start", "1"], ["start", "2"], ["stop", "2"], ["start", "3"], ["stop", "0"]]}]
    n = 60 if tier == "quick" else 1500
    for i in range(n):
        cap = rng.choice([1, 1, 2, 3])
        nr = rng.randint(cap + 1, cap + 4)
        cases.append({"cap": cap, "n": nr, "events": gen_history(rng, cap, nr)})
    return cases


def run_impl(cases, tier):
    res, infos = vf.harness_parallel("limiter", cases, shards=min(vf.NCPU, max(1, len(cases) // 4)))
    return res


def judge(cases, obs, tier):
    oracle, model, errors = {}, {}, []
    terms, idx = [], []
    for i, (c, o) in enumerate(zip(cases, obs)):
        if o is None or "panic" in o or "error" in o:
            oracle[i] = "implementation failed: %s" % (o,)
            continue
        live = []
        for k, (ev, ob) in enumerate(zip(c["events"], o["trace"])):
            j = int(ev[1])
            if ev[0] == "start" and j not in live:
                live.append(j)
            elif ev[0] == "stop" and j in live:
                live.remove(j)
            opened = ob["open"] or []
            if len(opened) > c["cap"]:
                oracle[i] = "after event %d (%s %s): %d files are being read under a limit of %d (open: %s)" % (k, ev[0], ev[1], len(opened), c["cap"], opened)
                break
            if len(opened) < min(c["cap"], len(live)):
                oracle[i] = "after event %d (%s %s): only %d of %d possible reads run although %d sessions are live (a slot is lost or kept); limiter length %d" % (
                    k, ev[0], ev[1], len(opened), min(c["cap"], len(live)), len(live), ob["tokens"])
                break
            if any(x not in live for x in opened):
                oracle[i] = "after event %d a stopped session's file is still being read: open %s, live %s" % (k, opened, live)
                break
        # a session that is gone before it reaches the limiter leaves the live set unchanged: (false, i) on a non-live reader
        evs = vf.cq_list(["(%s, %s)" % (vf.cq_bool(e[0] == "start"), e[1]) for e in c["events"]])
        ob = vf.cq_list(["(%d, %s)" % (t["tokens"], vf.cq_list([str(x) for x in (t["open"] or [])])) for t in o["trace"]])
        terms.append("(%d, %s, %s)" % (c["cap"], evs, ob))
        idx.append(i)
    fails, errs = vf.coq_eval_sharded("From DT Require Import Lib.Bytes Model.C13_Limiter.", terms, "lim_agree", per_shard=300, case_type="lim_case")
    errors += errs
    for f in fails:
        model[idx[f]] = "observed limiter length / open files differ from the model's quiescent states"
    return {"oracle": oracle, "model": model, "errors": errors}


def classify(case, ob, detail):
    return None


def nontrivial(c):
    return c["n"] > c["cap"] and any(e[0] == "stop" for e in c["events"])


def sample(c, o):
    return {"cap": c["cap"], "readers": c["n"], "events": [" ".join(e) for e in c["events"]],
            "observed": [(t["tokens"], t["open"]) for t in (o or {}).get("trace", [])]}
