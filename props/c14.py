# C14 — connection slots are bounded by MaxConnections and always given back.
import os, subprocess, time
from lib import vf, srv

ID = "C14"
PROP_FILE = "Props/C14.v"
CONSTS = ["default_max_connections"]
EXTRA_BINS = ("dcat", "dtail")
RULE = ("scripted connection histories against the real server in-process (listener loop, x/crypto handshake, channel and request "
        "handling): bad password, health login, key login without a channel, with a channel, with one / two shell requests, two "
        "channels, raw TCP connections that never speak, immediate resets, bursts of simultaneous attempts, interleaved with "
        "closes; after every event the reported counter (at quiescence) and the harness' own count of live connections are "
        "recorded; non-trivial = history reaches the limit or contains a connection that ends without a shell request; distinct "
        "by (max, events)")
TRUSTED = ["Coq 8.16.1 kernel + VM", "Go harness dverif connsrv (x/crypto/ssh client side) + add-only overlay accessor VerifCurrentConnections",
           "kernel accept queue / TCP are outside the model; 'open' is judged at quiescence"]
ASSUMPTIONS = ["a connection is 'being served' from accept until handleConnection returns (handshake included)",
               "the counter read by the accessor is the one printed in the STATS|currentConnections= log line"]

KINDS = ["key_shell", "key_shell", "key_nochan", "key_chan", "key_2shell", "key_shell_twice", "health", "health_nochan", "badpw", "tcp_only", "tcp_reset",
         "key_exec", "key_pty", "key_env", "key_subsystem", "key_direct", "key_nouser", "key_osuser"]


def gen_history(rng, mx):
    evs, live, n = [], [], 0
    for _ in range(rng.randint(4, 14)):
        k = rng.random()
        if k < 0.12:
            evs.append(["burst", str(rng.choice([2, 3, mx + 1, mx + 2])), rng.choice(["key_shell", "key_nochan", "tcp_only"]), "b%d" % n])
            n += 1
        elif k < 0.65 or not live:
            cid = "c%d" % n
            n += 1
            evs.append(["open", cid, rng.choice(KINDS)])
            live.append(cid)
        else:
            cid = rng.choice(live)
            live.remove(cid)
            evs.append(["close", cid])
    return evs


def generate(rng, tier):
    cases = [{"max": 3, "events": [["open", "a", "key_nochan"], ["close", "a"], ["open", "b", "key_nochan"], ["close", "b"], ["open", "c", "key_nochan"], ["close", "c"], ["open", "d", "key_shell"]]},
             {"max": 2, "events": [["open", "a", "key_shell_twice"], ["close", "a"], ["open", "b", "key_shell"], ["open", "c", "key_shell"], ["open", "d", "key_shell"]]},
             {"max": 1, "events": [["burst", "4", "key_shell", "x"]]}]
    n = 40 if tier == "quick" else 1200
    for i in range(n):
        mx = rng.choice([1, 2, 3, 3, 5])
        cases.append({"max": mx, "events": gen_history(rng, mx)})
    cases.append({"max": 2, "events": [["open", "a", "key_direct"], ["open", "b", "key_direct"], ["open", "c", "key_shell"], ["close", "a"], ["open", "d", "key_shell"]]})
    # black box: the limit an administrator configures (config file -> config.Setup), below the other default limits
    for mx in ([1] if tier == "quick" else [1, 2, 3]):
        cases.append({"e2e_limit": mx})
    return cases


def _e2e_limit(mx):
    """A real server started from a configuration file with MaxConnections = mx; mx following dtail clients hold its slots;
    a further dcat must be refused (no content); after one holder has gone a dcat is served."""
    env = srv.Env(os.path.join(vf.scratch(), "c14lim%d" % mx))
    s = env.start_server("lim", server_cfg={"MaxConnections": mx})
    path = os.path.join(env.dir, "f.log")
    open(path, "w").write("LIMIT-CONTENT\n")
    common = ["--cfg", "none", "--servers", "127.0.0.1:%d" % s.port, "--trustAllHosts", "--key", env.key, "--user", "root", "--plain"]
    holders = []
    for _ in range(mx):
        holders.append(subprocess.Popen([os.path.join(srv.BIN, "dtail")] + common + ["--files", path], stdin=subprocess.DEVNULL,
                                        stdout=subprocess.DEVNULL, stderr=subprocess.DEVNULL, env=env.client_env(), cwd=env.dir))
    time.sleep(2.0)
    alive = sum(1 for h in holders if h.poll() is None)
    rc1, out1, _ = env.client("dcat", ["--plain", "--files", path], servers=[s], timeout=30)
    holders[0].kill(); holders[0].wait()
    time.sleep(1.5)
    rc2, out2, _ = env.client("dcat", ["--plain", "--files", path], servers=[s], timeout=30)
    for h in holders[1:]:
        h.kill(); h.wait()
    env.stop_all()
    return {"holders_alive": alive, "served_when_full": b"LIMIT-CONTENT" in (out1 or b""), "served_after_release": b"LIMIT-CONTENT" in (out2 or b"")}


def run_impl(cases, tier):
    # one server process per shard; histories in a shard run one after the other (leaked slots of earlier
    # histories are subtracted as the baseline of the next one)
    hist = [i for i, c in enumerate(cases) if "e2e_limit" not in c]
    res, infos = vf.harness_parallel("connsrv", [cases[i] for i in hist], shards=min(vf.NCPU, max(1, len(hist) // 3)), timeout=1500)
    obs = [None] * len(cases)
    for i, r in zip(hist, res):
        obs[i] = r
    for i, c in enumerate(cases):
        if "e2e_limit" in c:
            obs[i] = _e2e_limit(c["e2e_limit"])
    return obs


# what a client kind does, as events of Model/C14_Proto.v
PROTO = {"key_nochan": "[SAuthOk]", "health_nochan": "[SAuthOk]", "key_chan": "[SAuthOk; SChan true]",
         "key_shell": "[SAuthOk; SChan true; SReq true]", "health": "[SAuthOk; SChan true; SReq true]",
         "key_2shell": "[SAuthOk; SChan true; SReq true; SChan true; SReq true]", "key_shell_twice": "[SAuthOk; SChan true; SReq true; SReq true]",
         "badpw": "[SAuthFail]", "key_nouser": "[SAuthFail]", "key_osuser": "[SAuthFail]", "tcp_only": "[]", "tcp_reset": "[SClientClose]", "key_direct": "[SAuthOk; SChan false]",
         "key_exec": "[SAuthOk; SChan true; SReq false]", "key_pty": "[SAuthOk; SChan true; SReq false]",
         "key_env": "[SAuthOk; SChan true; SReq false]", "key_subsystem": "[SAuthOk; SChan true; SReq false]"}
AUTH_OK = {"key_shell", "key_nochan", "key_chan", "key_2shell", "key_shell_twice", "health", "health_nochan", "tcp_only", "key_direct"}


def judge(cases, obs, tier):
    oracle, model, errors = {}, {}, []
    terms, idx, pterms, pidx = [], [], [], []
    for i, (c, o) in enumerate(zip(cases, obs)):
        if o is None or "panic" in o or "error" in o:
            errors.append("connsrv failed: %s" % (o,))
            continue
        if "e2e_limit" in c:
            if o["holders_alive"] != c["e2e_limit"]:
                errors.append("e2e limit %d: only %d holding clients stayed connected" % (c["e2e_limit"], o["holders_alive"]))
            elif o["served_when_full"]:
                oracle[i] = "a server configured with MaxConnections=%d served a further client while %d connections were open" % (c["e2e_limit"], c["e2e_limit"])
            elif not o["served_after_release"]:
                oracle[i] = "a server configured with MaxConnections=%d did not serve a client after a connection had ended" % c["e2e_limit"]
            continue
        mx = c["max"]
        before = 0          # ground truth before the event: connections the harness holds open
        seq, ids, ok = [], {}, True
        served = {}
        for step, (ev, ob) in enumerate(zip(c["events"], o["trace"])):
            if ev[0] == "open" and ev[2] in AUTH_OK:
                should = before < mx
                adm = ob["admitted"][0]
                if adm != should:
                    oracle[i] = "event %d (%s): connection %s although %d of %d slots were in use" % (step, " ".join(ev), "admitted" if adm else "refused", before, mx); ok = False; break
                ids[ev[1]] = len(ids)
                served[ev[1]] = adm
                if seq is not None:
                    seq.append("(true, %d, %s, %s)" % (ids[ev[1]], vf.cq_bool(adm), vf.cq_z(ob["count"])))
            elif ev[0] == "burst" and ev[2] in AUTH_OK:
                adm = sum(1 for a in ob["admitted"] if a)
                should = min(len(ob["admitted"]), max(0, mx - before))
                if adm != should:
                    oracle[i] = "event %d: a burst of %d attempts with %d of %d slots in use had %d admitted (expected %d)" % (step, len(ob["admitted"]), before, mx, adm, should); ok = False; break
                seq = None   # burst order is the scheduler's: counter checked by the oracle only
            elif ev[0] == "close" and served.get(ev[1]) and seq is not None:
                served[ev[1]] = False
                seq.append("(false, %d, true, %s)" % (ids[ev[1]], vf.cq_z(ob["count"])))
            if ev[0] == "open" and before < mx and ev[2] in PROTO:
                # a slot was free: is the connection of this client kind still up afterwards?  (protocol model)
                pterms.append("(%s, %s)" % (PROTO[ev[2]], vf.cq_bool(ob["open"] - before == 1)))
                pidx.append(i)
            if ob["count"] != ob["open"]:
                oracle[i] = "event %d (%s): the server reports %d open connections, %d are actually open (max %d)" % (step, " ".join(ev), ob["count"], ob["open"], mx); ok = False; break
            if ob["count"] < 0 or ob["count"] > mx:
                oracle[i] = "event %d: reported connection count %d outside 0..%d" % (step, ob["count"], mx); ok = False; break
            before = ob["open"]
        if ok and o["final"] != 0:
            oracle[i] = "after all connections were closed the server still reports %d open" % o["final"]
        if ok and seq:
            terms.append("(%s, %s)" % (vf.cq_z(mx), vf.cq_list(seq)))
            idx.append(i)
    fails, errs = vf.coq_eval_sharded("From DT Require Import Lib.Bytes Model.C14_Conn.", terms, "conn_agree", per_shard=300, case_type="conn_case")
    errors += errs
    for f in fails:
        model[idx[f]] = "observed admissions / counter differ from the model's accounting"
    fails, errs = vf.coq_eval_sharded("From DT Require Import Lib.Bytes Model.C14_Proto.", pterms, "proto_agree", per_shard=500, case_type="proto_case")
    errors += errs
    for f in fails:
        model[pidx[f]] = "Coq model of what ends a connection differs from the server (a client kind's connection is up / gone against the model)"
    return {"oracle": oracle, "model": model, "errors": errors}


def classify(case, ob, detail):
    return None


def nontrivial(c):
    if "e2e_limit" in c:
        return True
    return any(e[0] == "burst" or (e[0] == "open" and e[2] in ("key_nochan", "key_chan", "tcp_only", "key_shell_twice", "key_2shell", "health_nochan", "key_direct")) for e in c["events"])


def sample(c, o):
    if "e2e_limit" in c:
        return {"e2e_limit": c["e2e_limit"], "observed": o}
    return {"max": c["max"], "events": [" ".join(e) for e in c["events"]],
            "observed": [(t["count"], t["admitted"], t["open"]) for t in (o or {}).get("trace", [])], "final": (o or {}).get("final")}
