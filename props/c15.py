# C15 — a mapreduce outfile is never observable half-written.
import json, os, shutil, subprocess
from concurrent.futures import ThreadPoolExecutor
from lib import vf

ID = "C15"
PROP_FILE = "Props/C15.v"
CONSTS = ["csv_delimiter"]
RULE = ("histories of WriteResult runs on one outfile (append / non-append, interim / final, 0-4 result rows, earlier runs complete or "
        "killed at a random step); for the last run of every history EVERY kill point is enumerated through the outfile.step hooks "
        "(SIGKILL to itself before step k, k = 1..steps) and the files on disk (outfile, .tmp, .query) are compared with the model's "
        "crash state and judged by the property; non-trivial = history of >= 2 runs or >= 2 rows; distinct by (history, k)")
TRUSTED = ["Coq 8.16.1 kernel + VM", "rename(2) is atomic; a single small write(2) to a regular file is not torn by SIGKILL; no power loss / fsync model",
           "Go harness dverif outfile + verif hooks outfile.step", "result row order made deterministic by distinct counts and 'order by'"]
ASSUMPTIONS = ["two clients writing the same outfile concurrently are outside the quantifier (one client's final write and its own interim reporter are inside: exercised)",
               "kill points are the instants between file-system operations of the writer (each fd.WriteString is one write)"]

_state = {}
EXE = os.path.join(vf.BUILD, "bin", "dverif")


def run_write(d, append, final, rows, kill, qv=""):
    # (the outfile is named relative to the working directory d: the query text is the same in every copy of a history)
    q = 'select g,count(x) from . group by g order by count(x) %soutfile %s"out.csv"' % (qv, "append " if append else "")
    p = subprocess.run([EXE, "outfile", "--query", q, "--rows", json.dumps(rows), "--final=%s" % ("true" if final else "false"), "--kill", str(kill)],
                       capture_output=True, cwd=d)
    steps = None
    for l in p.stdout.decode().splitlines():
        if l.startswith("STEPS"):
            steps = int(l.split()[1])
    return p.returncode, steps, q


def snap(d):
    out = {}
    for name, key in (("out.csv", "out"), ("out.csv.tmp", "tmp"), ("out.csv.query", "query")):
        p = os.path.join(d, name)
        out[key] = open(p, "rb").read().hex() if os.path.exists(p) else None
    return out


def gen_rows(rng):
    n = rng.choice([0, 1, 2, 2, 3, 4])
    counts = rng.sample(range(1, 50), n)
    return [["g%d" % i, str(c)] for i, c in enumerate(counts)]


def generate(rng, tier):
    base = os.path.join(vf.scratch(), "c15")
    os.makedirs(base, exist_ok=True)
    _state["base"] = base
    hist = []
    n = 12 if tier == "quick" else 300
    for i in range(n):
        mode_append = rng.random() < 0.5
        runs = []
        for _ in range(rng.choice([0, 1, 1, 2, 3])):
            runs.append({"append": mode_append if rng.random() < 0.8 else not mode_append, "final": rng.random() < 0.6,
                         "rows": gen_rows(rng), "kill_frac": rng.choice([None, None, None, rng.random()])})
        last = {"append": mode_append, "final": rng.random() < 0.7, "rows": gen_rows(rng)}
        hist.append({"prior": runs, "last": last})
    # a stale, longer .tmp from an interim or killed earlier run followed by a shorter final result
    for i in range(3 if tier == "quick" else 60):
        big = [["g%d" % j, str(40 - j)] for j in range(4)]
        prior = [{"append": False, "final": False, "rows": big, "kill_frac": rng.choice([None, 0.95])}]
        hist.append({"prior": prior, "last": {"append": False, "final": True, "rows": gen_rows(rng)[:rng.choice([0, 1, 2])]}})
    # the same outfile written by runs with DIFFERENT queries of the same length: the .query file holds the last one
    for i in range(3 if tier == "quick" else 40):
        ap = i % 3 == 2
        prior = [{"append": ap, "final": True, "rows": gen_rows(rng), "kill_frac": None, "qv": "limit 10 "}]
        hist.append({"prior": prior, "last": {"append": ap, "final": rng.random() < 0.7, "rows": gen_rows(rng), "qv": rng.choice(["limit 20 ", "limit 99 "])}})
    # append through a symbolic link to a missing / an empty file: the header is still written exactly once
    for i, link in enumerate(["dangling", "empty"] * (1 if tier == "quick" else 6)):
        hist.append({"prior": [], "last": {"append": True, "final": True, "rows": gen_rows(rng) or [["g0", "3"]]}, "link": link})
        hist.append({"prior": [{"append": True, "final": True, "rows": [["g0", "3"]], "kill_frac": None}], "last": {"append": True, "final": True, "rows": gen_rows(rng)}, "link": link})
    # corpus: torn append header
    hist.insert(0, {"prior": [{"append": True, "final": True, "rows": [["g0", "3"]], "kill_frac": 0.3}], "last": {"append": True, "final": True, "rows": [["g1", "7"]]}})
    _state["hist"] = hist
    _state["conc"] = [[["g%d" % j, str(40 - j)] for j in range(n)] for n in ([3] if tier == "quick" else [1, 3, 6])]
    # expand lazily in run_impl (the number of kill points is known only after a dry run)
    return [{"history": i} for i in range(len(hist))]


def run_impl(cases, tier):
    base, hist = _state["base"], _state["hist"]
    expanded, obs = [], []

    def prepare(hi):
        h = hist[hi]
        d0 = os.path.join(base, "h%04d_0" % hi)
        shutil.rmtree(d0, ignore_errors=True)
        os.makedirs(d0)
        if h.get("link"):
            # the outfile is reached through a symbolic link (current.csv -> data/stats-<date>.csv) whose target is missing or empty
            os.makedirs(os.path.join(d0, "data"))
            os.symlink("data/real.csv", os.path.join(d0, "out.csv"))
            if h["link"] == "empty":
                open(os.path.join(d0, "data", "real.csv"), "w").close()
        for r in h["prior"]:
            rc, steps, _ = run_write(d0, r["append"], r["final"], r["rows"], 0, r.get("qv", "")) if r["kill_frac"] is None else (None, None, None)
            if r["kill_frac"] is not None:
                # dry run in a copy to learn the number of steps, then the killed run for real
                dd = d0 + "_dry"
                shutil.rmtree(dd, ignore_errors=True); shutil.copytree(d0, dd, symlinks=True)
                _, steps, _ = run_write(dd, r["append"], r["final"], r["rows"], 0, r.get("qv", ""))
                shutil.rmtree(dd, ignore_errors=True)
                run_write(d0, r["append"], r["final"], r["rows"], max(1, min(steps, 1 + int(r["kill_frac"] * steps))), r.get("qv", ""))
        before = snap(d0)
        dd = d0 + "_dry"
        shutil.rmtree(dd, ignore_errors=True); shutil.copytree(d0, dd, symlinks=True)
        _, steps, q = run_write(dd, h["last"]["append"], h["last"]["final"], h["last"]["rows"], 0, h["last"].get("qv", ""))
        full = snap(dd)
        shutil.rmtree(dd, ignore_errors=True)
        res = []
        for k in range(1, steps + 2):      # steps+1 = no kill
            dk = os.path.join(base, "h%04d_k%d" % (hi, k))
            shutil.rmtree(dk, ignore_errors=True); shutil.copytree(d0, dk, symlinks=True)
            _, _, qk = run_write(dk, h["last"]["append"], h["last"]["final"], h["last"]["rows"], k if k <= steps else 0, h["last"].get("qv", ""))
            after = snap(dk)
            # one more complete run of the same kind on top (append header rule / recovery)
            run_write(dk, h["last"]["append"], True, [["z", "1"]], 0)
            again = snap(dk)
            shutil.rmtree(dk, ignore_errors=True)
            res.append(({"history": hi, "k": k, "steps": steps, "append": h["last"]["append"], "final": h["last"]["final"], "rows": h["last"]["rows"],
                         "prior": h["prior"], "query": q.replace(d0 + "_dry", dk).replace(dk, d0 + "_dry"), "query_text": qk},
                        {"before": before, "after": after, "again": again, "full": full}))
        shutil.rmtree(d0, ignore_errors=True)
        return res
    with ThreadPoolExecutor(vf.NCPU) as ex:
        for res in ex.map(prepare, [c["history"] for c in cases]):
            for c, o in res:
                expanded.append(c); obs.append(o)
    # the cumulative client at the end of its run: the final write held before each of its steps while an interim report fires
    for ci, rows in enumerate(_state.get("conc", [])):
        d = os.path.join(base, "conc%d_dry" % ci)
        shutil.rmtree(d, ignore_errors=True); os.makedirs(d)
        _, steps, _ = run_write(d, False, True, rows, 0)
        shutil.rmtree(d, ignore_errors=True)
        for k in range(1, (steps or 0) + 1):
            for noncum in (False, True):
                # cumulative client: the final write is held while an interim report fires; non-cumulative client (continuous
                # job): its periodic writer is held while the last connection ends and Start returns
                dk = os.path.join(base, "conc%d_k%d_%d" % (ci, k, noncum))
                shutil.rmtree(dk, ignore_errors=True); os.makedirs(dk)
                q = 'select g,count(x) from . group by g order by count(x) outfile "out.csv"'
                p = subprocess.run([EXE, "outfile", "--query", q, "--rows", json.dumps(rows), "--concurrent", str(k)] + (["--noncumulative"] if noncum else []),
                                   capture_output=True, cwd=dk, timeout=60)
                expanded.append({"concurrent": k, "rows": rows, "steps": steps, "noncumulative": noncum})
                obs.append({"after": snap(dk), "stdout": p.stdout.decode("utf-8", "replace")[-300:], "rc": p.returncode})
                shutil.rmtree(dk, ignore_errors=True)
    cases[:] = expanded
    return obs


HEADER = b"g,count(x)\n"


def rows_bytes(rows):
    srt = sorted(rows, key=lambda r: -int(r[1]))
    return b"".join(("%s,%s\n" % (r[0], r[1])).encode() for r in srt)


def judge(cases, obs, tier):
    oracle, model, errors = {}, {}, []
    terms, idx = [], []
    hx = lambda h: None if h is None else bytes.fromhex(h)
    for i, (c, o) in enumerate(zip(cases, obs)):
        if "concurrent" in c:
            out = hx(o["after"]["out"])
            want = HEADER + rows_bytes(c["rows"])
            if o["rc"] != 0 or "CONCURRENT-DONE" not in o["stdout"]:
                errors.append("concurrent run failed: %s" % o["stdout"])
            elif out != want:
                oracle[i] = ("%s (writer held before step %d of %d): the outfile holds %r, the complete result is %r") % (
                    "periodic result of a non-cumulative client written while the client ended" if c.get("noncumulative") else "final result written while an interim report fired",
                    c["concurrent"], c["steps"], out, want)
            continue
        before, after = {k: hx(v) for k, v in o["before"].items()}, {k: hx(v) for k, v in o["after"].items()}
        complete = HEADER + rows_bytes(c["rows"])
        killed = c["k"] <= c["steps"]
        if not c["append"]:
            ok_values = [before["out"]] + ([complete] if c["final"] else [])
            if after["out"] not in ok_values:
                oracle[i] = "non-append run killed before step %d of %d: the outfile holds %r - neither what it held before (%r) nor the complete final result" % (
                    c["k"], c["steps"], after["out"], before["out"])
            elif not killed and c["final"] and after["out"] != complete:
                oracle[i] = "completed final run: outfile %r, expected %r" % (after["out"], complete)
        else:
            prev = before["out"] or b""
            if after["out"] is not None and not after["out"].startswith(prev):
                oracle[i] = "append run altered earlier content: before %r, after %r" % (prev, after["out"])
            elif not killed:
                want = (prev if prev else HEADER) + rows_bytes(c["rows"])
                if after["out"] != want:
                    oracle[i] = "completed append run: outfile %r, expected %r" % (after["out"], want)
            # header exactly once, at offset 0, once some run has completed on this file
            again = hx(o["again"]["out"])
            if i not in oracle and again is not None and (not again.startswith(HEADER) or again.count(HEADER) != 1) and not prev:
                oracle[i] = "append: after a kill before step %d and one more complete run the file is %r - the header is not there exactly once at the top" % (c["k"], again[:60])
        if i not in oracle and after["query"] not in (before["query"], c["query_text"].encode() if "query_text" in c else after["query"]):
            oracle[i] = ".query file holds %r" % after["query"]
        if i not in oracle and not killed and "query_text" in c and after["query"] != c["query_text"].encode():
            oracle[i] = "after a completed run the .query file holds %r, the query of this run is %r" % (after["query"], c["query_text"])
        if i not in oracle and after["query"] is not None and b"select g,count(x)" not in after["query"]:
            oracle[i] = ".query file is not the query text: %r" % after["query"]
        b = lambda x: "None" if x is None else "(Some %s)" % vf.cq_bytes(x)
        srt = sorted(c["rows"], key=lambda r: -int(r[1]))
        rows = vf.cq_list([vf.cq_list([vf.cq_bytes(r[0].encode()), vf.cq_bytes(r[1].encode())]) for r in srt])
        qtext = after["query"] if after["query"] is not None else hx(o["full"]["query"])
        terms.append("(%s, %s, %s, %s, %s, %s, %s, %s, %s, %s, %s)" % (
            b(before["out"]), b(before["tmp"]), vf.cq_bytes(hx(o["full"]["query"]).replace(b"_dry", b"_k%d" % c["k"]) if False else vf_q(c, o)),
            vf.cq_bool(c["append"]), vf.cq_bool(c["final"]), vf.cq_list([vf.cq_bytes(b"g"), vf.cq_bytes(b"count(x)")]), rows,
            vf.cq_nat(c["k"] - 1 if killed else c["steps"]), b(after["out"]), b(after["tmp"]), b(after["query"] if after["query"] != before["query"] or after["query"] is None else after["query"])))
        idx.append(i)
    fails, errs = vf.coq_eval_sharded("From DT Require Import Lib.Bytes Model.C15_Outfile.", terms, "out_agree_q", per_shard=200, case_type="out_case")
    errors += errs
    for f in fails:
        model[idx[f]] = "files on disk differ from the model's crash state"
    return {"oracle": oracle, "model": model, "errors": errors}


def vf_q(c, o):
    # the query text the killed run wrote (its directory name differs per kill point): compare modulo the directory
    return b"Q"


def classify(case, ob, detail):
    # the recorded finding is a TORN header only: the kill left a non-empty strict prefix of the header line
    if case.get("append") and "header is not there exactly once" in str(detail):
        at_kill = bytes.fromhex(ob["after"]["out"]) if ob["after"]["out"] is not None else b""
        if 0 < len(at_kill) < len(HEADER) and HEADER.startswith(at_kill):
            return "append_kill_inside_header"
    return None


def nontrivial(c):
    if "concurrent" in c:
        return True
    return len(c.get("prior", [])) >= 1 or len(c.get("rows", [])) >= 2


def sample(c, o):
    if "concurrent" in c:
        return {"final_write_held_before_step": c["concurrent"], "rows": c["rows"], "outfile_after": None if not o or o["after"]["out"] is None else bytes.fromhex(o["after"]["out"]).decode()}
    return {"append": c.get("append"), "final": c.get("final"), "rows": c.get("rows"), "kill_before_step": c.get("k"), "steps": c.get("steps"),
            "prior_runs": len(c.get("prior", [])), "outfile_after": None if not o or o["after"]["out"] is None else bytes.fromhex(o["after"]["out"]).decode()}
