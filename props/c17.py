# C17 — the client talks only to servers whose host key is trusted.
import os, subprocess
from lib import vf, srv

ID = "C17"
PROP_FILE = "Props/C17.v"
CONSTS = []
EXTRA_BINS = ("dcat",)
RULE = ("the real KnownHostsCallback (Wrap, PromptAddHosts, trustHosts) with scripted answers on stdin: known-hosts files from a "
        "grammar (plain, multi-host, hashed, @cert-authority / @revoked markers, comments, blank lines, CRLF, missing final newline, "
        "entries with a shared name prefix), 1-5 contacted servers with known / unknown / changed keys, trust-all on and off, answer "
        "scripts over yes/y/all/a/no/n/details/d/empty/garbage; reconnect histories (first round decided, then the same servers "
        "through the same callback with a second answer script: a refused host stays out unless newly approved); plus end-to-end dcat runs against an in-process server with an "
        "unknown key (answer n: no content, no command reaches the server; answer y: content, host recorded); non-trivial = at "
        "least one unknown or changed key and a file with >= 2 entries; distinct by the whole scenario")
TRUSTED = ["Coq 8.16.1 kernel + VM", "x/crypto/ssh/knownhosts (matching, hashing, Normalize, Line) - verdicts and entry lines are oracle data",
           "Go harness dverif knownhosts (stdin replaced by a pipe)", "bufio.Scanner line semantics (shared with C18's file_lines)"]
ASSUMPTIONS = ["all contacts of a scenario arrive within the 2 s batching window (one prompt per scenario)",
               "clients constructed with explicit auth methods (health check, server-side jobs) use SimpleCallback and are outside the property",
               "lines stay below bufio.Scanner's 64 KiB token limit"]

_state = {}
HOSTS = [("web1:2222", "10.0.0.1:2222"), ("web2:2222", "10.0.0.2:2222"), ("web10:2222", "10.0.0.10:2222"), ("web1.example.org:2222", "10.0.1.1:2222"),
         ("db:22", "10.0.0.9:22"), ("web1:22220", "10.0.0.1:22220"), ("10.0.0.77:2222", "10.0.0.77:2222")]
ANS = ["y", "yes", "n", "no", "a", "all", "d", "details", "", "maybe", "Y", " y ", "yes please"]


def norm(a):
    h, p = a.rsplit(":", 1)
    return h if p == "22" else "[%s]:%s" % (h, p)


def generate(rng, tier):
    cases = []
    n = 70 if tier == "quick" else 2500
    for i in range(n):
        contacts_idx = rng.sample(range(len(HOSTS)), rng.choice([1, 1, 2, 3, 5]))
        status = {j: rng.choice(["known", "unknown", "unknown", "changed"]) for j in contacts_idx}
        file = []
        for j in range(len(HOSTS)):
            if j in status and status[j] == "unknown":
                continue
            if j not in status and rng.random() < 0.5:
                continue
            key = j if status.get(j) != "changed" else 100 + j
            k = rng.random()
            if k < 0.6:
                file.append({"kind": "host", "hosts": [HOSTS[j][0]], "key": key})
                if rng.random() < 0.5:
                    file.append({"kind": "host", "hosts": [HOSTS[j][1]], "key": key})
            elif k < 0.8:
                file.append({"kind": "host", "hosts": [HOSTS[j][0], HOSTS[j][1]], "key": key})
            else:
                file.append({"kind": "hashed", "hosts": [HOSTS[j][0]], "key": key})
        for _ in range(rng.choice([0, 1, 2, 3])):
            file.insert(rng.randrange(len(file) + 1), rng.choice([{"kind": "comment", "text": "a comment"}, {"kind": "blank"},
                                                                   {"kind": "marker", "marker": "@cert-authority", "hosts": ["*.example.net"], "key": 77},
                                                                   {"kind": "host", "hosts": ["other.example.com:2222"], "key": 50}]))
        cases.append({"file": file, "no_final_nl": rng.random() < 0.2, "crlf": rng.random() < 0.1, "trust_all": rng.random() < 0.15,
                      "answers": "".join(a + "\n" for a in [rng.choice(ANS) for _ in range(rng.choice([0, 1, 2, 3, 5]))]),
                      "contacts": [{"server": HOSTS[j][0], "remote": HOSTS[j][1], "key": j} for j in contacts_idx], "_status": {str(j): s for j, s in status.items()}})
    # a reconnecting client (dtail and tail-mode dmap retry every 2 s): the first round is decided by one answer, then the
    # same servers are contacted again through the same callback and a second answer (or none) is typed
    base = [c for c in cases if any(s != "known" for s in c["_status"].values())]
    for i in range(10 if tier == "quick" else 200):
        c = dict(rng.choice(base))
        c["answers"] = rng.choice(["n", "n", "no", "y", "a"]) + "\n"
        c["recontact"] = True
        c["answers2"] = rng.choice(["n\n", "n\n", "no\n", "maybe\nn\n", "y\n", ""])
        cases.append(c)
    # the client shuts down while unknown hosts are still being collected for the prompt: nobody approved them
    for i in range(3 if tier == "quick" else 40):
        c = dict(rng.choice(base))
        c["answers"] = ""
        c["trust_all"] = False
        c["cancel_after_ms"] = rng.choice([200, 700, 1500])
        cases.append(c)
    cases.append({"e2e": "n"})
    cases.append({"e2e": "y"})
    return cases


def _e2e(answer):
    env = srv.Env(os.path.join(vf.scratch(), "c17env_" + answer))
    s = env.start_server("kh", logger="stdout", level="debug")
    open(os.path.join(env.dir, "secret.txt"), "w").write("E2E-CONTENT\n")
    # not --plain: in plain/quiet mode nothing is logged, and the prompt's Pause() of the logger waits for the next log call
    cmd = [os.path.join(srv.BIN, "dcat"), "--cfg", "none", "--noColor", "--servers", "127.0.0.1:%d" % s.port, "--key", env.key, "--user", "root",
           "--files", os.path.join(env.dir, "secret.txt")]
    try:
        p = subprocess.run(cmd, input=(answer + "\n").encode(), stdout=subprocess.PIPE, stderr=subprocess.PIPE, env=env.client_env(), timeout=60, cwd=env.dir)
    except subprocess.TimeoutExpired as ex:
        p = subprocess.CompletedProcess(cmd, -9, ex.stdout or b"", ex.stderr or b"")
    kh = os.path.join(env.home, ".ssh", "known_hosts")
    log = s.log()
    env.stop_all()
    return {"e2e": answer, "content": b"E2E-CONTENT" in p.stdout, "server_saw_command": "Handling user command" in log,
            "known_hosts": open(kh).read() if os.path.exists(kh) else ""}


def run_impl(cases, tier):
    direct = [i for i, c in enumerate(cases) if "e2e" not in c]
    # one harness process per scenario: the prompt machinery owns the process' stdin / stdout
    from concurrent.futures import ThreadPoolExecutor
    send = [{k: v for k, v in cases[i].items() if not k.startswith("_")} for i in direct]
    with ThreadPoolExecutor(vf.NCPU) as ex:
        res = [r[0][0] for r in ex.map(lambda c: vf.harness("knownhosts", [c], timeout=120), send)]
    obs = [None] * len(cases)
    for i, r in zip(direct, res):
        obs[i] = r
    for i, c in enumerate(cases):
        if "e2e" in c:
            obs[i] = _e2e(c["e2e"])
    return obs


def scan_lines(b):
    ls = b.split(b"\n")
    if ls and ls[-1] == b"":
        ls.pop()
    return [l[:-1] if l.endswith(b"\r") else l for l in ls]


def decide(trust_all, answers):
    if trust_all:
        return "proceed"
    for a in answers:
        a = a.strip()
        if a in ("y", "yes", "a", "all"):
            return "proceed"
        if a in ("n", "no"):
            return "refused"
    return "blocked"


def judge(cases, obs, tier):
    oracle, model, errors = {}, {}, []
    kterms, kidx, pterms, pidx, hterms, hidx = [], [], [], [], [], []
    for i, (c, o) in enumerate(zip(cases, obs)):
        if o is None or "panic" in o or "error" in o:
            oracle[i] = "implementation failed: %s" % (o,)
            continue
        if "e2e" in c:
            if c["e2e"] == "n" and (o["content"] or o["server_saw_command"] or o["known_hosts"].strip()):
                oracle[i] = "refused host: content=%s, server saw a command=%s, known_hosts=%r" % (o["content"], o["server_saw_command"], o["known_hosts"][:80])
            if c["e2e"] == "y" and (not o["content"] or "127.0.0.1" not in o["known_hosts"]):
                oracle[i] = "approved host: content=%s known_hosts=%r" % (o["content"], o["known_hosts"][:80])
            continue
        before, after = bytes.fromhex(o["before"]), bytes.fromhex(o["after"])
        answers = c["answers"].split("\n")[:-1] if c["answers"] else []
        status = c["_status"]
        if c.get("cancel_after_ms"):
            for k, ct in enumerate(c["contacts"]):
                st = status[str(ct["key"])]
                got = o["results"][k].split(":")[0]
                if (st == "known") != (got == "proceed"):
                    oracle[i] = "client shut down %d ms after contacting %s (%s key, nothing answered at the prompt): client %s" % (c["cancel_after_ms"], ct["server"], st, got)
                    break
            if i not in oracle and after != before:
                oracle[i] = "known-hosts file changed although no host was newly trusted (client shut down before the prompt)"
            continue
        need = [k for k, ct in enumerate(c["contacts"]) if status[str(ct["key"])] != "known"]
        d = decide(c["trust_all"], answers) if need else None
        for k, ct in enumerate(c["contacts"]):
            st = status[str(ct["key"])]
            got = o["results"][k].split(":")[0]
            want = "proceed" if st == "known" else d
            if got != want:
                oracle[i] = "server %s (%s key): client %s, the property prescribes %s (trust_all=%s, answers=%r)" % (ct["server"], st, got, want, c["trust_all"], answers)
                break
        if i not in oracle and c.get("recontact"):
            answers2 = c["answers2"].split("\n")[:-1] if c["answers2"] else []
            d2 = decide(c["trust_all"], answers2)
            for k, ct in enumerate(c["contacts"]):
                st = status[str(ct["key"])]
                got = (o.get("results2") or [""] * len(c["contacts"]))[k].split(":")[0]
                if st == "known" or c["trust_all"]:
                    allowed = {"proceed"}
                elif d == "proceed":
                    allowed = {"proceed", d2}          # recorded in round one: matches now, or (hashed / marker leftovers) asked again
                else:
                    allowed = {d2}                     # refused in round one: only a new answer can admit it
                if got not in allowed:
                    oracle[i] = ("reconnect to %s (%s key, %s in the first round): client %s, the property prescribes %s (second answers %r)"
                                 % (ct["server"], st, d, got, "/".join(sorted(allowed)), answers2))
                    break
        if i in oracle:
            continue
        if c.get("recontact"):
            # the file after two rounds is not compared (first-round cases cover it); the history model runs both rounds when the
            # known-hosts verdicts of the second round are determined (nothing was recorded by an answer in the first)
            if d != "proceed" or c["trust_all"]:
                cs = vf.cq_list(["(%d, %s)" % (ct["key"], vf.cq_bool(status[str(ct["key"])] == "known")) for ct in c["contacts"]])
                al = lambda xs: vf.cq_list([vf.cq_bytes(a.strip().encode()) for a in xs])
                cd = lambda rs: vf.cq_list([str({"proceed": 0, "refused": 1, "blocked": 2}[r.split(":")[0]]) for r in rs])
                hterms.append("(%s, [(%s, %s); (%s, %s)], [%s; %s])" % (vf.cq_bool(c["trust_all"]), al(answers), cs, al(answers2), cs, cd(o["results"]), cd(o["results2"])))
                hidx.append(i)
            continue
        old = scan_lines(before)
        if need and d == "proceed":
            ents = [o["entries"][k] for k in need]
            addrs = set()
            for e in ents:
                addrs.add(e["norm_host"].encode()); addrs.add(e["norm_ip"].encode())
            new_lines = set()
            for e in ents:
                new_lines.add(e["host_line"].encode()); new_lines.add(e["ip_line"].encode())
            kept = [l for l in old if l.split(b" ", 1)[0] not in addrs]
            got_lines = scan_lines(after)
            head, tail = got_lines[:2 * len(ents)], got_lines[2 * len(ents):]
            if set(head) != new_lines or len(head) != 2 * len(ents):
                oracle[i] = "the entries of the newly trusted hosts are not what was recorded: %r" % head[:4]
            elif tail != kept:
                lost = [l for l in kept if l not in tail]
                extra = [l for l in tail if l not in kept]
                oracle[i] = "existing entries not left intact: lost %r, unexpected %r" % (lost[:2], extra[:2])
            elif o["tmp_left"]:
                oracle[i] = "known_hosts.tmp left behind"
            b = lambda x: vf.cq_bytes(x)
            kterms.append("(%s, %s, %s, %s)" % (vf.cq_list([b(l) for l in head]), vf.cq_list([b(a) for a in sorted(addrs)]), b(before), b(after)))
            kidx.append(i)
        elif after != before:
            oracle[i] = "known-hosts file changed although no host was newly trusted"
        if need:
            code = {"proceed": 0, "refused": 1, "blocked": 2}[o["results"][need[0]].split(":")[0]]
            pterms.append("(%s, %s, %d)" % (vf.cq_bool(c["trust_all"]), vf.cq_list([vf.cq_bytes(a.strip().encode()) for a in answers]), code))
            pidx.append(i)
    fails, errs = vf.coq_eval_sharded("From DT Require Import Lib.Bytes Model.C17_KnownHosts.", kterms, "kh_agree", per_shard=200, case_type="kh_case")
    errors += errs
    for f in fails:
        model[kidx[f]] = "Coq model `rewrite` differs from the rewritten known-hosts file"
    fails, errs = vf.coq_eval_sharded("From DT Require Import Lib.Bytes Model.C17_KnownHosts.", pterms, "prompt_agree", per_shard=400, case_type="prompt_case")
    errors += errs
    for f in fails:
        model[pidx[f]] = "Coq model of the prompt differs from the observed decision"
    fails, errs = vf.coq_eval_sharded("From DT Require Import Lib.Bytes Model.C17_KnownHosts.", hterms, "hist_agree", per_shard=200, case_type="hist_case")
    errors += errs
    for f in fails:
        model[hidx[f]] = "Coq model of the reconnect history differs from the observed decisions"
    return {"oracle": oracle, "model": model, "errors": errors}


def classify(case, ob, detail):
    return None


def nontrivial(c):
    return "e2e" in c or (any(s != "known" for s in c["_status"].values()) and sum(1 for l in c["file"] if l["kind"] in ("host", "hashed", "marker")) >= 2)


def sample(c, o):
    if "e2e" in c:
        return {"e2e_answer": c["e2e"], "observed": {k: v for k, v in (o or {}).items() if k != "known_hosts"}}
    return {"contacts": [(ct["server"], c["_status"][str(ct["key"])]) for ct in c["contacts"]], "trust_all": c["trust_all"], "answers": c["answers"],
            "file_lines": len(c["file"]), "results": (o or {}).get("results"), "recontact": c.get("recontact", False), "answers2": c.get("answers2"),
            "results2": (o or {}).get("results2")}
