# C18 — server discovery yields each wanted server exactly once.
import os, socket, subprocess, threading, time
from lib import vf, srv

EXTRA_BINS = ("dtail", "dcat")

ID = "C18"
PROP_FILE = "Props/C18.v"
CONSTS = ["default_connections_per_cpu"]
RULE = ("generated comma lists / server files / plug-in module entry lists with duplicates, host:port forms, empty "
        "entries, CRLF, blank lines, 1..5000 entries and optional /regex/ filters; non-trivial = at least 2 distinct "
        "entries and (a duplicate or a filter that removes something); distinct by case content")
TRUSTED = ["Coq 8.16.1 kernel + bytecode VM (vm_compute)", "harness/constgen (constants translator)",
           "Go harness dverif disc + add-only overlay internal/discovery/verif_export.go (plug-in source)",
           "Go regexp (filter verdicts are an oracle table)", "math/rand (any in-range index sequence)",
           "bufio.Scanner line semantics below the 64 KiB token limit"]
ASSUMPTIONS = ["shuffle order is unspecified: outputs are compared as sorted lists",
               "server-file lines stay below bufio.Scanner's 64 KiB token limit",
               "an empty line / empty comma field is an entry (the empty string), as the code reads it"]

NAMES = [b"a", b"b", b"web1.example.org", b"web2.example.org:2222", b"db-01", b"db-01:2223", b"10.0.0.7", b"[::1]:22",
         b"x" * 70, b"", b"A", b"web1.example.org "]
REGEXES = [b"web", b"^db-", b"\\d+$", b"^$", b".", b"example\\.org(:\\d+)?$", b"^[ab]$", b"nomatch", b"(?i)^a$"]


def _entries(rng, n):
    pool = rng.sample(NAMES, rng.randint(1, len(NAMES)))
    if rng.random() < 0.3:
        pool = [p for p in pool if p != b""] or [b"a"]
    if n > 50 and rng.random() < 0.7:
        pool = pool + [b"host%04d.dc%d.example.org:%d" % (i, i % 3, 2222 + (i % 2)) for i in range(n // 2)]
    return [rng.choice(pool) for _ in range(n)]


def generate(rng, tier):
    cases = []
    # corpus: the observations recorded in DESIGN.md first
    cases.append({"kind": "comma", "server": b"a,b,a,c:2222,b".hex()})
    cases.append({"kind": "comma", "server": b"".hex()})
    cases.append({"kind": "comma", "server": b"a,,b,".hex()})
    cases.append({"kind": "file", "server": b"a\r\nb\n\nb\na".hex()})
    cases.append({"kind": "module", "entries": [e.hex() for e in [b"a", b"b", b"a", b"web1", b"b"]], "regex": b"^[ab]$".hex()})
    n = 400 if tier == "quick" else 6000
    sizes = [0, 1, 2, 3, 5, 8, 13, 40, 120]
    for i in range(n):
        k = rng.random()
        size = rng.choice(sizes)
        if i % 97 == 5:
            size = 600 if tier == "quick" else rng.choice([1000, 5000])
        es = _entries(rng, size)
        if k < 0.35:
            es = [e.replace(b",", b"") for e in es]
            cases.append({"kind": "comma", "server": b",".join(es).hex()})
        elif k < 0.65:
            es = [e for e in es]
            eol = rng.choice([b"\n", b"\n", b"\r\n"])
            body = eol.join(es)
            if rng.random() < 0.6:
                body += eol
            cases.append({"kind": "file", "server": body.hex()})
        else:
            rx = rng.choice(REGEXES) if rng.random() < 0.8 else b""
            cases.append({"kind": "module", "entries": [e.hex() for e in es], "regex": rx.hex()})
    # server files that are not regular files: a named pipe (--servers <(cmd)), a symbolic link
    for i in range(6 if tier == "quick" else 100):
        es = _entries(rng, rng.choice([1, 2, 3, 8]))
        cases.append({"kind": "file", "server": (b"\n".join(es) + b"\n").hex(), "fifo": i % 2 == 0, "symlink": i % 2 == 1})
    # connections attempted by the real clients (dcat: one attempt per entry; dtail: reconnects after a dropped connection;
    # more failing servers than connection-throttle slots: every one is still contacted)
    cases.append({"kind": "attempts", "n": 0, "tool": "dcat", "listed": 3, "seconds": 4})
    cases.append({"kind": "attempts", "n": 1, "tool": "dtail", "listed": 2, "seconds": 6})
    cases.append({"kind": "attempts", "n": 2, "tool": "dcat", "listed": (os.cpu_count() or 8) + 5, "seconds": 12, "cpc": 1})
    return cases


def _attempts(c):
    """Black box: a real client against TCP listeners that drop every connection; which addresses does it contact
    (first attempts and - for the retrying dtail - reconnects)?"""
    env = srv.Env(os.path.join(vf.scratch(), "c18att%d" % c["n"]))
    socks, counts = [], {}
    stop = {"flag": False}

    def serve(s, name):
        s.settimeout(0.2)
        while not stop["flag"]:
            try:
                conn, _ = s.accept()
            except OSError:
                continue
            counts[name] = counts.get(name, 0) + 1
            conn.close()
    names = ["listed%d" % k for k in range(c["listed"])] + ["default_port"]
    ports = {}
    for name in names:
        s = socket.socket(); s.setsockopt(socket.SOL_SOCKET, socket.SO_REUSEADDR, 1); s.bind(("127.0.0.1", 0)); s.listen(64)
        ports[name] = s.getsockname()[1]
        socks.append(s)
        threading.Thread(target=serve, args=(s, name), daemon=True).start()
    hosts = ["127.0.0.1", "localhost"]
    servers = ",".join("%s:%d" % (hosts[k % 2], ports["listed%d" % k]) for k in range(c["listed"]))
    open(os.path.join(env.dir, "f.log"), "w").write("x\n")
    cmd = [os.path.join(srv.BIN, c["tool"]), "--cfg", "none", "--noColor", "--servers", servers, "--port", str(ports["default_port"]),
           "--trustAllHosts", "--key", env.key, "--user", "root", "--files", os.path.join(env.dir, "f.log")]
    if c.get("cpc"):
        cmd += ["--cpc", str(c["cpc"])]
    p = subprocess.Popen(cmd, stdin=subprocess.DEVNULL, stdout=subprocess.DEVNULL, stderr=subprocess.DEVNULL, env=env.client_env(), cwd=env.dir)
    try:
        p.wait(c["seconds"])
    except subprocess.TimeoutExpired:
        p.kill(); p.wait()
    stop["flag"] = True
    time.sleep(0.3)
    for s in socks:
        s.close()
    return {"counts": counts, "names": names}


def run_impl(cases, tier):
    disc = [i for i, c in enumerate(cases) if c["kind"] != "attempts"]
    res, infos = vf.harness_parallel("disc", [cases[i] for i in disc])
    obs = [None] * len(cases)
    for i, r in zip(disc, res):
        obs[i] = r
    att = [i for i, c in enumerate(cases) if c["kind"] == "attempts"]
    from concurrent.futures import ThreadPoolExecutor
    with ThreadPoolExecutor(max(1, len(att))) as ex:
        for i, r in zip(att, ex.map(lambda i: _attempts(cases[i]), att)):
            obs[i] = r
    return obs


def _wanted(case, ob):
    if case["kind"] == "comma":
        return bytes.fromhex(case["server"]).split(b",")
    if case["kind"] == "file":
        data = bytes.fromhex(case["server"])
        lines = data.split(b"\n")
        if lines and lines[-1] == b"":
            lines.pop()
        return [l[:-1] if l.endswith(b"\r") else l for l in lines]
    es = [bytes.fromhex(e) for e in case["entries"]]
    if case.get("regex"):
        return [e for e, m in zip(es, ob["matches"]) if m]
    return es


def _term(case, ob):
    kind = {"comma": 0, "file": 1, "module": 2}[case["kind"]]
    server = vf.cq_bytes(bytes.fromhex(case.get("server", "")))
    entries = vf.cq_list([vf.cq_bytes(bytes.fromhex(e)) for e in case.get("entries", [])])
    tab = "None"
    if case["kind"] == "module" and case.get("regex"):
        tab = "(Some %s)" % vf.cq_list([vf.cq_bool(m) for m in ob["matches"]])
    observed = vf.cq_list([vf.cq_bytes(b) for b in sorted(bytes.fromhex(s) for s in ob["servers"])])
    return "(%d, %s, %s, %s, %s)" % (kind, server, entries, tab, observed)


def judge(cases, obs, tier):
    oracle, model, errors, notes = {}, {}, [], []
    live = []
    for i, (c, o) in enumerate(zip(cases, obs)):
        if o is None or "panic" in (o or {}) or "error" in (o or {}):
            oracle[i] = "implementation failed: %s" % (o,)
            continue
        if "skip" in o:
            continue
        if c["kind"] == "attempts":
            cnt = o["counts"]
            if cnt.get("default_port"):
                oracle[i] = "%s contacted an address that is not in the list (host:<default port>) %d times; listed entries were contacted %s" % (
                    c["tool"], cnt["default_port"], {k: v for k, v in cnt.items() if k != "default_port"})
            elif any(not cnt.get("listed%d" % k) for k in range(c["listed"])):
                oracle[i] = "%s never contacted some listed entries: %s" % (c["tool"], cnt)
            elif c["tool"] == "dcat" and any(cnt.get("listed%d" % k) != 1 for k in range(c["listed"])):
                oracle[i] = "dcat contacted an entry more than once: %s" % cnt
            continue
        got = [bytes.fromhex(s) for s in o["servers"]]
        want = _wanted(c, o)
        if len(set(got)) != len(got):
            oracle[i] = "a server is contacted more than once"
        elif set(got) - set(want):
            oracle[i] = "invented servers: %r" % sorted(set(got) - set(want))[:3]
        elif set(want) - set(got):
            oracle[i] = "lost servers: %r" % sorted(set(want) - set(got))[:3]
        live.append(i)
    terms = [_term(cases[i], obs[i]) for i in live]
    fails, errs = vf.coq_eval_sharded("From DT Require Import Lib.Bytes Model.C18_Discovery.", terms, "disc_agree",
                                      per_shard=60 if tier == "quick" else 400, case_type="disc_case")
    errors += errs
    for f in fails:
        model[live[f]] = "Coq model run_disc differs from the implementation's sorted server list"
    return {"oracle": oracle, "model": model, "errors": errors, "notes": notes}


def nontrivial(c):
    if c["kind"] == "attempts":
        return True
    if c["kind"] == "module":
        es = c["entries"]
    elif c["kind"] == "comma":
        es = bytes.fromhex(c["server"]).split(b",")
    else:
        es = bytes.fromhex(c["server"]).split(b"\n")
    return len(set(es)) >= 2 and (len(set(es)) < len(es) or bool(c.get("regex")))


def sample(c, o):
    if c["kind"] == "attempts":
        return {"kind": "attempts", "tool": c["tool"], "listed": c["listed"], "counts": (o or {}).get("counts")}
    d = {"kind": c["kind"]}
    if "server" in c:
        d["server"] = bytes.fromhex(c["server"])[:80].decode("latin1")
    if "entries" in c:
        d["entries"] = [bytes.fromhex(e).decode("latin1") for e in c["entries"][:8]]
        d["regex"] = bytes.fromhex(c.get("regex", "")).decode("latin1")
    if o and "servers" in o:
        d["observed"] = [bytes.fromhex(e).decode("latin1") for e in o["servers"][:8]]
    return d


def shrink(case, ob, detail):
    return case, ob, detail
