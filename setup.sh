#!/bin/sh
# Offline setup: build the constants translator, regenerate Gen/Consts.v, build the whole Coq
# development (full .vo build), pre-build the Go harness.  Everything else is rebuilt per check.
set -e
cd "$(dirname "$0")"
export GOFLAGS=-mod=mod GOPROXY=off GOSUMDB=off GOTOOLCHAIN=local
mkdir -p build evidence replays
python3 - <<'PY'
import sys, os
sys.path.insert(0, os.getcwd())
from lib import vf
ok, missing = vf.constgen()
print("constgen ok=%s missing=%s" % (ok, missing))
allok, log, miss = vf.coq_build()
print(log[-2000:])
print("coq build ok=%s missing=%s" % (allok, sorted(miss)))
hok, hout = vf.build_harness(("dcat", "dgrep", "dmap", "dtail", "dserver"))
print("harness ok=%s %s" % (hok, hout[-2000:]))
sys.exit(0 if (allok and hok) else 1)
PY
