#!/usr/bin/env python3
"""Confirm a seeded change in its scratch worktree and keep it under /verif/seeded/<id>-<n>/.
usage: keep_seed.py <PROP> <n> <demo command run from the worktree> [--needs "..."]
Confirms: patch applies; go build; existing tests pass with the patch; demo passes on the pristine
tree and fails with the patch.  Then runs ./check <PROP> against /repo with the patch applied."""
import json, os, shutil, subprocess, sys, time
prop, n, demo = sys.argv[1], sys.argv[2], sys.argv[3]
needs = sys.argv[5] if len(sys.argv) > 5 and sys.argv[4] == "--needs" else ""
wt = "%s/%s" % (os.environ.get("SEED_ROOT", "/tmp/seed"), prop)
src = "%s/seedout/%s" % (wt, n)
env = dict(os.environ, GOFLAGS="-mod=mod", GOPROXY="off", GOSUMDB="off", GOTOOLCHAIN="local")
def run(cmd, cwd=wt, timeout=900):
    p = subprocess.run(cmd, shell=True, cwd=cwd, env=env, stdout=subprocess.PIPE, stderr=subprocess.STDOUT, timeout=timeout)
    return p.returncode, p.stdout.decode("utf-8", "replace")
ran = {}
run("git checkout -- .")
rc, out = run(demo); ran["demo_pristine"] = {"cmd": demo, "rc": rc, "tail": out[-600:]}
assert rc == 0, "demo fails on the pristine tree:\n" + out[-2000:]
rc, out = run("git apply %s/patch.diff" % src); assert rc == 0, out
rc, out = run("go build ./..."); ran["build"] = {"rc": rc}; assert rc == 0, out
rc, out = run("go test -vet=off -count=1 ./..."); ran["tests_with_patch"] = {"rc": rc, "tail": out[-400:]}
assert rc == 0, "existing tests fail with the patch:\n" + out[-2000:]
rc, out = run(demo); ran["demo_patched"] = {"cmd": demo, "rc": rc, "tail": out[-800:]}
assert rc != 0, "demo passes with the patch"
run("git checkout -- .")
# our check against /repo with the patch applied
rc, out = run("git -C /repo status --short")
assert out.strip() == "", "/repo is dirty: " + out
rc, out = run("git -C /repo apply %s/patch.diff" % src); assert rc == 0, "patch does not apply to /repo HEAD: " + out
evp = "/verif/evidence/%s.json" % prop
saved_ev = open(evp, "rb").read() if os.path.exists(evp) else None
try:
    t0 = time.time()
    rc, out = run("./check %s --tier quick" % prop, cwd="/verif", timeout=3000)
    ran["check_quick"] = {"rc": rc, "wall_s": round(time.time() - t0, 1), "lines": [l[:300] for l in out.splitlines() if l.startswith(("VIOLATION", "KNOWN", prop))]}
finally:
    run("git -C /repo checkout -- .")
    # the evidence file must describe a run on the unchanged tree: put the previous one back
    if saved_ev is not None:
        open(evp, "wb").write(saved_ev)
dst = "/verif/seeded/%s-%s" % (prop, os.environ.get("SEED_AS", n))
os.makedirs(dst, exist_ok=True)
for f in os.listdir(src):
    if f.endswith(".log"):
        continue
    shutil.copy(os.path.join(src, f), os.path.join(dst, f))
notes = open(os.path.join(src, "notes.md")).read() if os.path.exists(os.path.join(src, "notes.md")) else ""
meta = {"property": prop, "breaks": notes[:1500], "needs_to_manifest": needs or "see notes.md",
        "demo": demo, "ran": ran, "caught_by_quick_check": ran["check_quick"]["rc"] == 1,
        "repo_head": subprocess.check_output(["git", "-C", "/repo", "rev-parse", "--short", "HEAD"]).decode().strip()}
json.dump(meta, open(os.path.join(dst, "meta.json"), "w"), indent=1)
print("kept", dst, "caught" if meta["caught_by_quick_check"] else "MISSED", ran["check_quick"]["lines"])
