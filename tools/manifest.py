#!/usr/bin/env python3
"""Regenerate MANIFEST.json from the table below (kept valid at all times)."""
import json, os, subprocess
V = os.path.dirname(os.path.dirname(os.path.abspath(__file__)))
CLAIMED = {
 "C01": ("Coq theorems over an executable model of the dcat --plain pipeline (reader with MaxLineLength splitting -> one frame per line -> arbitrary transport re-chunking -> client splitter -> hidden-message rule): chunking invariance and fidelity to the insert-newline specification for all contents, all MaxLineLength, all chunkings under the guard the faithful model forces; the two protocol defects are proved as refutations of the full statement and recorded as known findings. Tied to the code by running the real dcat (serverless and through an in-process SSH server, plain/gz/zst) against the model.",
         "partial: gzip/zstd decoders, kernel pipes and the SSH transport are outside the model; log records in stdout are stripped before the model comparison (recorded finding)",
         "Coq proof (simulation lemma by induction, generic alphabet) + differential correspondence check"),
 "C02": ("Coq LTS of a cat/grep session (commands arriving, readers pushing into the bounded lines queue, command counter, flush, .syn, Read taking from any non-empty queue; every scheduling choice and the consumer's pace are environment events). Theorem C02_partial: with the repaired flush and all commands received before the counter first returns to 0, on EVERY schedule every line of every file precedes the .syn, once and in order; the two ways the pinned code failed are proved as refutations with witness schedules. Tied to the code by driving real ServerHandler sessions with a paced consumer (trace inclusion + oracle) and black-box dcat into a throttled reader.",
         "partial: Go scheduler/select/timers are environment events; liveness (session ends by itself, exit 0) is observed, not proved; the late-command race is a recorded finding classified through the verif hooks",
         "Coq proof (invariant by induction over event lists, 9-clause record) + trace-inclusion correspondence with paced real sessions"),
 "C03": ("Coq model of filterWithLContext (state machine, branch for branch, with the running-number arithmetic) and a declarative grep specification; proved equal on the finite domain |file|<=8, before/after<=3, max<=4 (kernel-evaluated sweep lifted by forallb_forall), no-op pattern theorems; full unbounded statement kept visible as C03_full. Tied to the code through the reader API and the real dgrep CLI with RE2 verdicts as oracle.",
         "partial: unbounded induction for C03_full not yet proved; RE2 is an oracle",
         "Coq proof (finite sweep lifted by forallb_forall; structural lemmas) + differential correspondence check"),
 "C08": ("Coq model of the permission decision (rule parsing with the optional type prefix and '!', last-match-wins iteration, abort on an uncompilable rule, per-user lists replacing the defaults, resolved path / regular-file gate); theorems: C08_parse (every pattern, ':' included, bare or prefixed, is read as its meaning), C08_served_iff (served iff resolved, regular and the LAST matching rule is an allow) for all rule lists and match oracles, and the refutation of the pinned parser (a skipped deny rule grants access). Tied to the code by running user.HasFilePermission on generated trees with symlink chains, FIFOs, '..' and rule lists with POSIX classes.",
         "partial: regexp and OS path resolution are oracles (Python realpath/lstat is the independent reference); TOCTOU between check and open is outside the model; background users bypass by design",
         "Coq proof (induction over rule lists, rev_ind for last-match) + differential correspondence check on real directory trees"),
 "C09": ("Coq model of the two authentication decisions: verifyAuthorizedKeys over files abstracted to classified lines (C09_keys: accepted iff listed, for every arrangement of blank / comment / junk lines; refutation of the pinned loop) and the password callback (C09_password: granted iff health/health or a background user with a configured job name and an allow-listed peer, DNS as oracle), plus the health-only handler rule. Tied to the code by calling verifyAuthorizedKeys with real keys and rendered files, the real Callback with generated job configurations, and real SSH handshakes against the in-process server.",
         "partial: signature verification and ParseAuthorizedKey's line grammar are x/crypto; DNS is an oracle",
         "Coq proof (induction with fuel; iff characterisations) + differential correspondence check incl. real SSH handshakes"),
 "C10": ("Coq theorem C10_no_panic: for every byte stream, session state and behaviour of the library oracles, the model of Write -> handleCommand -> protocol/base64/option parsing -> dispatch -> arity checks never reaches a Go panic (every index/slice/nil access is a checked operation in the model). Tied to the code by a decode-level comparison (real ServerHandler up to the command callback) and by a crash oracle: generated payloads are fed to real sessions in child processes, a dead process is a violation.",
         "partial: query parsing totality is C11's theorem; reader internals beyond the before-context bound, regexp and x/crypto are outside the model; resource exhaustion is out of scope",
         "Coq proof (case analysis with checked indexing) + crash oracle in child processes + decode-level differential check"),
 "C11": ("Coq model of the whole query parser (tokenize, keyword detection, tokensConsume with back-quote stripping, every clause builder, the function stack, the post-checks) with checked indexing; theorem C11_total: NewQuery never panics for any text and any ParseFloat/Atoi behaviour; keyword case-insensitivity. Round trip (valid query in any surface variation -> denoted structure) and rejection of malformed families are decided by the correspondence check: random abstract queries rendered in random clause order / case / separators / quoting, their mutations and a malformed corpus, compared field by field with mapr.NewQuery, with an independent Python denotation as oracle.",
         "partial: the unbounded round-trip theorem is not proved (exercised only); strconv is an oracle; Unicode white space / case folding outside ASCII is outside the model",
         "Coq proof of totality (fuelled recursion, in-range slicing lemmas) + differential correspondence check with independent denotation oracle"),
 "C12": ("Coq theorem C12_roundtrip: for every pattern, flag, context values in Z, output modes, blank-free file path and every iteration order of the option map, the server's decoding (Write -> handleCommand -> option parsing -> dispatch -> regex.Deserialize) of the bytes the client sends yields exactly the requested read command; base64/strconv enter as hypotheses. Model tied to the code by running the real client constructors + SendMessage and the real ServerHandler.Write on hostile patterns and option values, including dmap's option-less first command.",
         "encoding/base64, strconv, regexp.Compile, mapr.NewQuery are oracles (hypotheses in the theorem, per-case tables in the correspondence check)",
         "Coq proof (split/join algebra over bytes, induction over option lists) + differential correspondence check"),
 "C13": ("Coq LTS of the shared limiter (readers Idle/Waiting/Holding/Done, events Start/Acquire/CancelWaiting/Finish, the channel length); theorems for every limit, number of readers and history: C13_inv (channel length = number of holders <= limit), C13_cancel (a cancelled waiter neither keeps nor releases a slot), C13_progress (a free slot can always be taken by a waiter); the pinned ordering of the deferred release is refuted with the witness history. Tied to the code by scripted start/stop histories over real sessions sharing a limiter, observed through len(limiter) and the open files of the process, sequenced with the verif hooks.",
         "partial: scheduler fairness among waiters is not claimed; the harness observes at quiescence only",
         "Coq proof (invariant by induction over histories, counting lemma) + hook-sequenced correspondence on real sessions"),
 "C14": ("Coq model of the slot accounting (Accept admits iff a slot is free and reserves it; End releases it): for every MaxConnections and every history C14_inv (reported count = connections being served, 0 <= count <= max), C14_admit (admitted iff fewer than max are served), C14_release (each ending connection frees exactly its slot); the pinned accounting is modelled separately and refuted three ways (leak, negative count, burst). Tied to the code by scripted histories of real SSH/TCP clients of every kind against the real server in-process, comparing the reported counter with the harness' ground truth after every event.",
         "partial: kernel accept queue and TCP are outside the model; 'open' is judged at quiescence; burst order is the scheduler's (oracle only)",
         "Coq proof (invariant over histories, NoDup/length lemmas) + scripted-history correspondence against the real server"),
 "C16": ("Coq model of brush.Colorfy (record kinds, SplitN, the painters' trim-and-reappend of the newline, codes as abstract complete SGR sequences) and of the client handlers' Write; theorems: C16_text (text parts of the rendering concatenate to the message - for every message), no-panic for the repaired painters and the mapreduce handler, refutation witness for the pinned painters; the strip statement is proved on the finite domain of all 66 430 messages of <= 5 symbols over the special-byte alphabet (C16_strip_partial), the unbounded version is stated and exercised. Tied to the code through brush.Colorfy and the three handlers on generated messages/streams with colours on and off.",
         "partial: unbounded strip theorem not proved; palette abstracted; terminal outside the model",
         "Coq proof (structural lemmas; finite sweep lifted by forallb_forall) + differential correspondence check"),
 "C18": ("Coq theorems C18_set/C18_shuffle_perm/C18_dedup/C18_comma/C18_file over an executable model of source->filter->dedup->shuffle for all entry lists, filters and legal index sequences; model tied to the code by a differential correspondence check (Go harness vs vm_compute) on generated lists/files/plug-in sources.",
         "regexp, math/rand and bufio.Scanner are oracles; outputs compared as sorted lists",
         "Coq proof (induction, Permutation/NoDup) + differential correspondence check"),
}
ALL = ["C%02d" % i for i in range(1, 19)]
def main():
    hooks_commits = [l.split()[0] for l in subprocess.check_output(["git", "-C", "/repo", "log", "--format=%h %s"]).decode().splitlines() if l.split(" ", 1)[1].startswith("verif hooks")]
    m = {"version": 1, "setup_cmd": "./setup.sh",
         "hooks": {"guard": "verif",
                   "enable": "go build -tags verif -overlay build/overlay.json ./cmd/dverif (harness sources and add-only export files are injected from /verif/harness with -overlay; hook call sites committed in /repo are listed in MANIFEST.hooks.source_commits)",
                   "baseline_off_cmd": "cd /repo && GOFLAGS=-mod=mod go test -vet=off -count=1 ./...",
                   "source_commits": hooks_commits, "add_only": True},
         "engines": [{"name": "coq", "path": "coq/", "serves_properties": sorted(CLAIMED), "kind_free_text": "Coq 8.16.1 development: executable models (Model/), proofs (Proofs/), property statements with Print Assumptions (Props/), constants regenerated from the Go source (Gen/Consts.v)"},
                     {"name": "dverif", "path": "harness/", "serves_properties": sorted(CLAIMED), "kind_free_text": "Go correspondence harness built from /repo's working tree with -overlay and the go/ast constants translator"}],
         "checks": [], "not_applicable": [],
         "notes": "Every check: regenerate Gen/Consts.v from /repo, make the Coq development, hygiene grep + Print Assumptions, build the harness from the working tree, run corpus + generated cases on implementation and model, judge with the property oracle. known_findings.json lists recorded/fixed defects."}
    for pid in sorted(CLAIMED):
        text, note, tech = CLAIMED[pid]
        m["checks"].append({"property_id": pid, "quick_cmd": "./check %s --tier quick" % pid, "thorough_cmd": "./check %s --tier thorough" % pid,
                            "evidence_file": "/verif/evidence/%s.json" % pid, "replay_cmd_template": "./check %s --replay {path}" % pid,
                            "engine": "coq", "level_claimed": {"category": "proof", "text": text, "design_ref": "DESIGN.md §4 " + pid},
                            "level_note": "Trusted: Coq kernel + VM (vm_compute), no axioms (Print Assumptions closed), constants translator, Go harness, Python generators/oracles. " + note,
                            "technique": tech})
    for pid in ALL:
        if pid not in CLAIMED:
            m["not_applicable"].append({"property_id": pid, "reason": "not claimed in this commit: its Coq model, theorems and correspondence check are not built yet (work in progress, see DESIGN.md §6 build order)"})
    json.dump(m, open(os.path.join(V, "MANIFEST.json"), "w"), indent=1)
if __name__ == "__main__":
    main()
