#!/usr/bin/env python3
"""Run the quick check again for kept seeds (after the checks were strengthened) and update their meta.json.
usage: recheck_seed.py C03-11 C05-12 ...   Applies seeded/<id>/patch.diff to /repo, runs ./check, undoes it, restores the evidence file."""
import json, os, subprocess, sys, time
env = dict(os.environ, GOFLAGS="-mod=mod", GOPROXY="off", GOSUMDB="off", GOTOOLCHAIN="local")
def run(cmd, cwd="/verif", timeout=3000):
    p = subprocess.run(cmd, shell=True, cwd=cwd, env=env, stdout=subprocess.PIPE, stderr=subprocess.STDOUT, timeout=timeout)
    return p.returncode, p.stdout.decode("utf-8", "replace")
bad = 0
for d in sys.argv[1:]:
    prop = d.split("-")[0]
    dst = "/verif/seeded/%s" % d
    rc, out = run("git -C /repo status --short")
    assert out.strip() == "", "/repo is dirty: " + out
    rc, out = run("git -C /repo apply %s/patch.diff" % dst); assert rc == 0, out
    evp = "/verif/evidence/%s.json" % prop
    saved = open(evp, "rb").read() if os.path.exists(evp) else None
    try:
        t0 = time.time()
        rc, out = run("./check %s --tier quick" % prop)
    finally:
        run("git -C /repo checkout -- .")
        if saved is not None:
            open(evp, "wb").write(saved)
    meta = json.load(open(dst + "/meta.json"))
    meta["ran"]["check_quick"] = {"rc": rc, "wall_s": round(time.time() - t0, 1),
                                  "lines": [l[:300] for l in out.splitlines() if l.startswith(("VIOLATION", "KNOWN", prop))]}
    meta.setdefault("history", []).append("missed by the checks as they were when the change was made; caught after they were strengthened (DESIGN.md 10.4)")
    meta["caught_by_quick_check"] = rc == 1 and any(l.startswith("VIOLATION property=%s " % prop) for l in meta["ran"]["check_quick"]["lines"])
    json.dump(meta, open(dst + "/meta.json", "w"), indent=1)
    bad += not meta["caught_by_quick_check"]
    print(d, "caught" if meta["caught_by_quick_check"] else "MISSED", meta["ran"]["check_quick"]["lines"][-1:], flush=True)
sys.exit(1 if bad else 0)
