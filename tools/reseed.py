#!/usr/bin/env python3
"""Replay every kept seeded change against the current checks: apply seeded/<id>-<n>/patch.diff to /repo, run the
property's quick check, undo the patch (and put the clean-tree evidence file back).  Writes seeded/RESEED.json and
prints one line per seed; exit 1 if a seed is no longer caught or no longer applies.
usage: reseed.py [C03 C16 ...]   (default: all)"""
import json, os, subprocess, sys, time
V = "/verif"
want = set(a.upper() for a in sys.argv[1:])
env = dict(os.environ, GOFLAGS="-mod=mod", GOPROXY="off", GOSUMDB="off", GOTOOLCHAIN="local")


def run(cmd, cwd=V, timeout=3000):
    p = subprocess.run(cmd, shell=True, cwd=cwd, env=env, stdout=subprocess.PIPE, stderr=subprocess.STDOUT, timeout=timeout)
    return p.returncode, p.stdout.decode("utf-8", "replace")


rc, out = run("git -C /repo status --short")
assert out.strip() == "", "/repo is dirty: " + out
res, bad = {}, 0
seeds = sorted(d for d in os.listdir(os.path.join(V, "seeded")) if os.path.isfile(os.path.join(V, "seeded", d, "patch.diff")))
for d in seeds:
    prop = d.split("-")[0]
    if want and prop not in want:
        continue
    patch = os.path.join(V, "seeded", d, "patch.diff")
    rc, out = run("git -C /repo apply %s" % patch)
    if rc != 0:
        res[d] = {"applies": False}
        bad += 1
        print(d, "DOES NOT APPLY", out.strip()[:200], flush=True)
        continue
    evp = os.path.join(V, "evidence", prop + ".json")
    saved = open(evp, "rb").read() if os.path.exists(evp) else None
    try:
        t0 = time.time()
        rc, out = run("./check %s --tier quick" % prop)
        lines = [l[:200] for l in out.splitlines() if l.startswith(("VIOLATION", prop))]
    finally:
        run("git -C /repo checkout -- .")
        if saved is not None:
            open(evp, "wb").write(saved)
    caught = rc == 1 and any(l.startswith("VIOLATION property=%s " % prop) for l in lines)
    res[d] = {"applies": True, "caught": caught, "wall_s": round(time.time() - t0, 1), "lines": lines}
    bad += 0 if caught else 1
    print(d, "caught" if caught else "MISSED", lines[-1] if lines else out[-200:], flush=True)
head = subprocess.check_output(["git", "-C", "/repo", "rev-parse", "--short", "HEAD"]).decode().strip()
if not want:
    json.dump({"repo_head": head, "seeds": res}, open(os.path.join(V, "seeded", "RESEED.json"), "w"), indent=1)
print("%d seeds, %d not caught" % (len(res), bad))
sys.exit(1 if bad else 0)
