#!/usr/bin/env python3
"""Replay every kept seeded change against the current checks - the regression suite of the checks themselves.
For each seeded/<id>-<n>/patch.diff: apply it to a scratch copy of /repo, run the property's quick check from a scratch copy
of /verif against that copy (VERIF_REPO), undo it.  /repo and /verif themselves are not touched (no evidence is written
there); the scratch copies live under --root (default /var/tmp/reseed) and are removed at the end.
Writes seeded/RESEED.json and prints one line per seed; exit 1 if a seed is no longer caught or no longer applies.
usage: reseed.py [--jobs N] [--root DIR] [C03 C16 ...]   (default: all properties, 3 workers)"""
import json, os, shutil, subprocess, sys, time
from concurrent.futures import ThreadPoolExecutor
V = "/verif"
args = sys.argv[1:]
jobs, root = 3, "/var/tmp/reseed"
while args and args[0].startswith("--"):
    if args[0] == "--jobs":
        jobs = int(args[1]); args = args[2:]
    elif args[0] == "--root":
        root = args[1]; args = args[2:]
    else:
        sys.exit(__doc__)
want = set(a.upper() for a in args)
env = dict(os.environ, GOFLAGS="-mod=mod", GOPROXY="off", GOSUMDB="off", GOTOOLCHAIN="local")


def run(cmd, cwd, timeout=3000, extra=None):
    p = subprocess.run(cmd, shell=True, cwd=cwd, env=dict(env, **(extra or {})), stdout=subprocess.PIPE, stderr=subprocess.STDOUT, timeout=timeout)
    return p.returncode, p.stdout.decode("utf-8", "replace")


seeds = sorted(d for d in os.listdir(os.path.join(V, "seeded")) if os.path.isfile(os.path.join(V, "seeded", d, "patch.diff")))
seeds = [d for d in seeds if not want or d.split("-")[0] in want]
props = sorted({d.split("-")[0] for d in seeds})
jobs = max(1, min(jobs, len(props)))
# whole properties per worker (same harness build), longest first
groups = [[] for _ in range(jobs)]
for i, p in enumerate(sorted(props, key=lambda p: -sum(1 for d in seeds if d.startswith(p + "-")))):
    groups[i % jobs].append(p)
shutil.rmtree(root, ignore_errors=True)


def worker(j):
    w = os.path.join(root, "w%d" % j)
    os.makedirs(w)
    run("rsync -a --exclude .git --exclude replays --exclude seeded /verif/ %s/verif/" % w, "/")
    run("git clone -q /repo %s/repo" % w, "/")        # the committed HEAD, whatever the working tree holds at the moment
    res = {}
    for d in [d for d in seeds if d.split("-")[0] in groups[j]]:
        prop = d.split("-")[0]
        rc, out = run("git apply %s" % os.path.join(V, "seeded", d, "patch.diff"), w + "/repo")
        if rc != 0:
            res[d] = {"applies": False}
            print(d, "DOES NOT APPLY", out.strip()[:200], flush=True)
            continue
        t0 = time.time()
        try:
            rc, out = run("./check %s --tier quick" % prop, w + "/verif", extra={"VERIF_REPO": w + "/repo"})
        except subprocess.TimeoutExpired:
            rc, out = -9, "timeout"
        finally:
            run("git checkout -- .", w + "/repo")
        lines = [l[:200] for l in out.splitlines() if l.startswith(("VIOLATION", prop))]
        caught = rc == 1 and any(l.startswith("VIOLATION property=%s " % prop) for l in lines)
        # "caught" only through obligations that no longer check, with no failing input at all: legitimate when the seed changes a
        # constant the proofs depend on, suspicious when the Coq tree itself is broken - flagged for a look
        broken = [l for l in lines if " broken=" in l and " broken=0 " not in l and " oracle_fail=0 " in l and " model_diff=0 " in l]
        res[d] = {"applies": True, "caught": caught, "wall_s": round(time.time() - t0, 1), "lines": lines,
                  "by_broken_build": bool(broken)}
        print(d, "caught" if caught else "MISSED", "(BROKEN BUILD) " if broken else "", lines[-1] if lines else out[-200:], flush=True)
    return res


res = {}
with ThreadPoolExecutor(jobs) as ex:
    for r in ex.map(worker, range(jobs)):
        res.update(r)
shutil.rmtree(root, ignore_errors=True)
bad = sum(1 for r in res.values() if not r.get("caught") or r.get("by_broken_build"))
head = subprocess.check_output(["git", "-C", "/repo", "rev-parse", "--short", "HEAD"]).decode().strip()
vhead = subprocess.check_output(["git", "-C", V, "rev-parse", "--short", "HEAD"]).decode().strip()
if not want:
    json.dump({"repo_head": head, "verif_head": vhead, "seeds": dict(sorted(res.items()))}, open(os.path.join(V, "seeded", "RESEED.json"), "w"), indent=1)
print("%d seeds, %d not caught" % (len(res), bad))
sys.exit(1 if bad else 0)
